#!/usr/bin/env python3
# Generates MANIFEST.json from the table below (kept in one place so it stays valid).
import json, subprocess

CLAIMED = {
 "C02": dict(
   text="Static decision of the structural clauses that keep committed history immutable: single writer sites and write positions of tx log and commit log (whole program), no DiscardUpto on history logs, lockset of the commit-state fields with caller-holds obligations at every call site, discard guard, TxReader chain check, and one-Alh-four-sinks provenance in performPrecommit. Necessary conditions of C02, not a proof over interleavings.",
   note="Trusted: Go type checker, go/ssa, frozen tables in checker/c02.go. Not covered: id density and byte equality under arbitrary schedules.",
   technique="who-may-call / who-may-write over the whole program, lockset dataflow, guard dominance, value provenance on SSA",
   ref="DESIGN.md §3 C02"),
 "C05": dict(
   text="Static decision of the completeness of the optimistic-validation wiring: every snapshot read of a read-write tx (found and not-found answers) records into the read-set; every record kind and field is validated at commit and counted by isEmpty(); validation runs under the store mutex, on the live index awaited up to the precommit frontier read inside the critical section, before performPrecommit; snapshots include the mandatory-MVCC tx. Necessary conditions of serializability, not a proof over interleavings.",
   note="Trusted: Go type checker, go/ssa, tables in checker/c05.go; safe MVCC mode. Not covered: sufficiency of the recorded information.",
   technique="must-pass-through and guard-dominance rules on the SSA CFG, struct-field coverage, lockset",
   ref="DESIGN.md §3 C05"),
 "C18": dict(
   text="Static decision of the table-and-gate part of the access-control matrix for every RPC: constant, consistent permission tables; every database-touching handler passes getDBFromCtx with a constant method that has a row; handlers whose database calls can reach a commit sink (class computed from the call graph) are gated by rows without read-only permission; admin rows and admin handlers require admin/sysadmin; system-database allow-list has no write-class method; inside the gate success is dominated by the systemdb guard and the permission check; user changes invalidate sessions after saving; SQL statements that write report readOnly()==false.",
   note="Trusted: Go type checker, go/ssa, tables in checker/c18.go; interceptor wiring and token arithmetic are not analysed.",
   technique="constant-table evaluation, call-graph effect classification, guard dominance and must-pass-through on the SSA CFG",
   ref="DESIGN.md §3 C18"),
 "C01": dict(
   text="Static decision of structural necessary conditions of proof soundness: hash coverage of every header/entry field; in the store verifiers every parameter is used and every accepting path crosses each required comparison and each sub-verifier's verified edge, with sub-verifiers applied to header-derived arguments; the client advances the trusted state only after a dual proof anchored in the trusted hash, signature check and a content-binding site; proto conversions carry every field.",
   note="Trusted: Go type checker, go/ssa, sha256, tables in checker/c01.go. Not covered: proof generation (completeness), arithmetic of the Merkle verifiers.",
   technique="guard-dominance / must-cross-edge queries on the SSA CFG, argument provenance, struct-field coverage",
   ref="DESIGN.md §3 C01"),
 "C06": dict(
   text="Static decision of the waiting discipline behind KV linearizability: every direct index read in pkg/database is preceded by an indexing wait targeting the committed frontier / SinceTx unless across NoWait or AtTx edges; async commit only under NoWait; commit paths wait for commit and then indexing of their own tx; preconditions evaluated under the store mutex after the index caught up.",
   note="Trusted: Go type checker, go/ssa, tables in checker/c06.go. Not covered: linearizability of histories.",
   technique="must-pass-through and guard-dominance on the SSA CFG, argument provenance, lockset",
   ref="DESIGN.md §3 C06"),
 "C07": dict(
   text="Static decision of the structural clauses behind faithful replication: call-graph-derived write-class database methods sit behind an isReplica() gate of the right polarity; every field of the replicated header is compared or copied in precommit and the Eh check is skippable only via skipIntegrityCheck; commit allowance written only by its two setters, raised only with enough acks and after the replica's committed/precommitted Alh were validated, accepted by a replica only after an Alh comparison; replicator-matched error texts and metadata keys are produced by the peer.",
   note="Trusted: Go type checker, go/ssa, tables in checker/c07.go. Not covered: equality of histories over delivery schedules.",
   technique="call-graph effect classification, guard dominance on the SSA CFG, struct-field coverage, constant-string agreement",
   ref="DESIGN.md §3 C07"),
 "C04": dict(
   text="Static decision of the structural clauses that keep the index equal to the committed log: no retained alias of the pooled tx buffer in the indexing bulk, writable tombstone metadata with checked error, per-transaction entry state and timestamps, waiters released by the tree's logical time, entry filters, index-ahead gate, read-side filter-before-offset pipeline in sibling readers, TS-file ordering.",
   note="Trusted: Go type checker, go/ssa, tables in checker/c04.go; entry mappers return fresh keys. Not covered: B-tree content (C10), mapper functions.",
   technique="alias taint, loop-carried-state dataflow, guard dominance and must-pass-through on the SSA CFG",
   ref="DESIGN.md §3 C04"),
 "C08": dict(
   text="Static decision of structural clauses of the Merkle constructions: domain-separation constants and their use at every tree hash site; verifier guards (i<=j, i!=0) dominate evaluation, verdicts compare evaluated and claimed roots, every verifier parameter influences the verdict beyond a zero check (known finding: VerifyLastInclusion's size), the entry-tree verifier ties term count to (Leaf, Width); ResetSize syncs and invalidates caches before shrinking; Append rewinds both logs before writing and advances sizes only without sync failure.",
   note="Trusted: Go type checker, go/ssa, tables in checker/c08.go. Not covered: equality with the reference construction for all sizes (digest-log arithmetic).",
   technique="hash-site shape analysis on SSA, guard dominance, parameter-influence (data/control dependence) analysis, ordering rules",
   ref="DESIGN.md §3 C08"),
 "C09": dict(
   text="Static decision of the structural clauses behind corruption detection: every tx-record reader ends in the Alh validation over all entry digests, every value read compares length and digest unless the skip flag is set, the flag is true only at a frozen list of call sites and false for proven material on verifiable paths, sequential scans and open-time checks re-validate the chain.",
   note="Trusted: Go type checker, go/ssa, sha256, tables in checker/c09.go. Not covered: that every bit flip changes a hash; absence of panics is C16.",
   technique="must-pass-through / guard dominance on the SSA CFG, constant-argument allow-list over the whole program",
   ref="DESIGN.md §3 C09"),
 "C10": dict(
   text="Static decision of copy-on-write discipline of B-tree nodes (every write to a logical node field is on a fresh node, on the receiver of an in-place mutator whose call sites are all on private nodes, under a mutated() guard, or under commitLog in writeTo), lock pairing and lockset of tree/snapshot state, snapshots pinned to flushed roots, discard bounded by open snapshots, flush ordering. Necessary conditions of snapshot immutability, not equivalence with the abstract map.",
   note="Trusted: Go type checker, go/ssa, COW field table and mutator table in checker/c10.go.",
   technique="effect/ownership analysis of node field writes, lockset and lock-pairing dataflow, path rules",
   ref="DESIGN.md §3 C10"),
 "C12": dict(
   text="Static decision of the structural clauses behind SQL integrity constraints: checkConstraints post-dominates every update of the row image before the row sink; computed assignments consult NOT NULL; update-style assignments (UPDATE and ON CONFLICT, cross-checked as siblings) cannot touch primary key columns; PK and unique-index probes go through the recording read layer before the write; failed statements cancel the transaction; unique index creation requires an emptiness probe.",
   note="Trusted: Go type checker, go/ssa, tables in checker/c12.go. Not covered: constraint satisfaction over histories/interleavings (rests on C05).",
   technique="must-pass-through from every map update to the sink on the SSA CFG, sibling cross-check, guard dominance",
   ref="DESIGN.md §3 C12"),
 "C13": dict(
   text="Static decision of the structural clauses behind SQL transaction atomicity: single commit site of the store transaction, closed transactions refused, every cancel path (ROLLBACK, session rollback, every function dropping sessions) reaches the store Cancel, SQL writes only through the SQLTx wrappers of one store transaction, ROLLBACK TO SAVEPOINT must reach the store write-set (known finding: it does not).",
   note="Trusted: Go type checker, go/ssa, tables in checker/c13.go. Not covered: isolation between sessions (C05), pgsql front-end.",
   technique="who-may-call over the program, must-pass-through on the SSA CFG, call-graph effect (field-write) reachability",
   ref="DESIGN.md §3 C13"),
 "C14": dict(
   text="Static decision of the clauses behind safe value-log truncation: lock pairing in the store (ExportTx), value-log fetch/release pairing, DiscardUpto only on fetched value logs or the index's own logs and never with embedded values, forward walk inclusive of the committed frontier, chunk deletion strictly below the offset's chunk, SQL+document catalog copied and committed before truncation through a single entry point, truncated values map to io.EOF / digest export.",
   note="Trusted: Go type checker, go/ssa, frozen tables in checker/c14.go. Not covered: the tombstone arithmetic of TruncateUptoTx.",
   technique="lock-pairing dataflow, who-may-call, guard dominance and must-pass-through on the SSA CFG",
   ref="DESIGN.md §3 C14"),
 "C15": dict(
   text="Static decision of structural agreement clauses of the codecs: sibling encoders/decoders perform the same sequence of fixed-width field operations; SQL key and value codecs handle the same type sets on both sides; length limits are compared with the same operator when writing and reading; Timestamp values are normalised to microseconds wherever they enter the engine; metadata proto conversions carry every attribute.",
   note="Trusted: Go type checker, go/ssa, go/ast, tables in checker/c15.go; codecs are in straight-line cursor style. Not covered: round-trip equality and order preservation for all values.",
   technique="layout trace comparison of sibling functions, AST switch-case and constant-comparison agreement, constructor normalisation (value provenance)",
   ref="DESIGN.md §3 C15"),
 "C16": dict(
   text="Static decision, for a frozen list of decoders of untrusted or possibly corrupted bytes, that every slice expression, index, fixed-size big-endian read and length-driven allocation is within bounds on all paths: each obligation (a linear inequality over SSA values and slice lengths) is discharged from dominating branch conditions, inferred callee summaries, stated interface contracts (checked on every implementation) and an induction step over loop cursors; explicit panics reachable from the decoders are violations; header decoders accept only known versions.",
   note="Trusted: Go type checker, go/ssa, the linear-arithmetic prover in checker/bounds.go (sound by construction: an obligation is accepted only if it is a non-negative combination of facts), the decoder list and the four stated preconditions/non-negativity assumptions in checker/c16.go. Not covered: termination/time bounds, overflow of cursor arithmetic, the generated SQL parser.",
   technique="bounds-obligation generation on SSA + dominating-fact linear prover with interprocedural summaries",
   ref="DESIGN.md §3 C16"),
 "C17": dict(
   text="Static decision of the structural clauses behind the byte-log behaviour of single-file and multi-file appendables: lock pairing, lockset with caller-holds helpers, flush-before-fsync/close/read-only switch, seek typestate (whoever moves the descriptor flags seekRequired), offset captured before write, rotation order and guard, SetOffset rewind discipline, discard guard.",
   note="Trusted: Go type checker, go/ssa, os.File semantics, tables in checker/c17.go. Not covered: refinement of the byte-array model over arbitrary operation sequences.",
   technique="lockset / lock-pairing dataflow, typestate and ordering rules over the SSA CFG",
   ref="DESIGN.md §3 C17"),
 "C03": dict(
   text="Static decision of the write-ordering, acknowledgement, recovery-guard and error-discipline clauses the crash-durability argument rests on (all paths of the commit, hash-tree, index and appendable code; all call sites of the ack primitives). A necessary condition of C03, not a proof of crash consistency.",
   note="Trusted: Go type checker, go/ssa lowering, the frozen rule tables in checker/c03*.go; appendables honour Flush/Sync. Not covered: which bytes survive a crash, recovery as a whole.",
   technique="must-pass-through / ordering rules over the SSA control-flow graph, who-may-call over the whole program, error-use dataflow",
   ref="DESIGN.md §3 C03"),
}
NA = {
 "C11": "relation between the results of two executions (plan independence) for all data and queries: value-level; no structural clause was found that is both necessary and checkable without fixing the implementation (the store mechanism it relies on is checked under C04)",
 "C19": "faithful storage and index-independent search of documents are value-level relations over documents and queries; the parts with checkable shape are decided under C01 (document proofs), C18 (gating of document RPCs), C07 (replica gating), C12/C13 (the underlying SQL table)",
}
PENDING = "check not built yet in this round (see DESIGN.md §3 for the planned static clauses)"

props = [json.loads(l) for l in open('/verif/properties.jsonl')]
checks, na = [], []

# clauses added after the first manifest (rules written while triaging seeded breakages and leads), appended to the text
EXTRA = {
 "C01": "Also: the boolean verdict of every verifier call made by client code is branched on before the call repeats, before success and before SetState. The state a server signs next to a proof is computed from the proof's target header in every handler. A response is refused, not crashed on: every sub-message of a server answer is found present (nil test or validated) before it is dereferenced; every column of a row shown by VerifyRow is compared with the proven row. The last leaf proven for the target's tree is the trusted source Alh when the source is that leaf. What a verified get hands to its caller is the proven entry: the digest key comes from the request and the key named by the answer is compared with it (the value resolved through a reference is a known finding).",
 "C02": "Also: the (id, accumulated hash) pairs of the precommit and commit frontiers are stored together on every path; the TxReader hands out a tx only across the Alh chain comparison in both scan directions; sync holds the commit-state lock over flush, fsync and commit-log append. The tx-log write position recedes with the precommit frontier. Every TxHeader field of the pooled tx holder is reassigned on every path before the header is hashed. Record limits agree between writer and reader.",
 "C03": "Also: commit waiters are released up to exactly the value stored as commit frontier; the index recovery walk ends only at a synced snapshot; after a failed fsync the file offset is rewound before the flushed-bytes counter is reset; fsync wrappers re-checked under darwin/windows/freebsd/386/arm64 in the thorough tier. The hash-tree rebuild at open covers precommitted transactions; the synced marker of an index commit entry is decoded before it is cleared. At open, precommitted transactions are reloaded only if their values lie within the value logs, hash-tree leaves are compared with the chain, and an empty last chunk file left by an interrupted creation is tolerated.",
 "C05": "Also: keys/prefixes/bounds kept in read-set records are private copies; a found and a not-found answer of each validation read is compared with the recorded one before validation moves on; the indexing wait before validation is never lower than the precommit frontier. A reader spec rebuilt for the commit-time replay copies every field from the field of the same name; the prefix fingerprint hashes everything it encodes. Every snapshot of a transaction is validated (no success from inside the loop); the snapshot floor is max(requested, mandatory); store key readers restart alike after Reset. A transaction's own pending write is substituted before filters decide (point lookups; the prefix variants are known findings).",
 "C06": "Also: handlers that pre-check the index and then commit a write-only transaction hold the exclusive database lock; all reads of one response go through one snapshot; precommitted transactions are served only where asked for. Transactions opened by the database layer derive their options from the store defaults (snapshot floor). KV preconditions are checked under the store mutex on an index awaited up to the frontier read inside that critical section. A read assembled from two indexes (ZScan) holds the db lock over both snapshots; index nodes are copy-on-write (analysis shared with C10.1).",
 "C07": "Also: the precommit buffer is addressed with T-committedTxID-1 at every id-addressed readAhead site (the replica's acknowledged state); the primary validates the replica's precommitted state before counting its acknowledgement; discard never crosses the durable watermark. The shared export buffer is copied under its lock. No call passes two same-typed named flags under each other's name; only AllowCommitUpto raises the commit allowance above the committed frontier. Demotion drops the replica states; a metadata-only transaction is accepted as it is produced.",
 "C08": "Also: the sizes recovered at open come from the last commit-log entry, never from the physical length of the payload/digest log. ResetSize derives the new sizes from the requested size; a rollback must survive a restart (known finding shared with C17). Proof walks run under the tree mutex; proof constructors refuse position 0 like the verifiers; an empty payload is readable; the cache eviction hand follows removals. Verdicts are evaluated from the proof; the synced watermark counts what was written.",
 "C09": "Also: bounds obligations of the tx-record decoders (shared with C16) and the recovery walk of the index. The value cache is keyed by the full encoded offset and holds private copies; every value handed out passed the digest comparison (known finding: the zero-length shortcut). No failing return of the value-log accessors keeps a lock; a header is handed out only after its entry count was compared with the maximum, whatever its version. A record read by id is the transaction asked for.",
 "C10": "Also: a leaf value built as a copy carries every field (history pointers); the ts file written beside a compaction dump carries the dumped snapshot's Ts. History walks are bounded by versions and report revisions from the per-version counter; cache keys carry the tree id; a root loaded from disk is installed as rollback target. A reader that is reset replays the same sequence (every iteration field is re-initialised); the skip counter of a history walk starts after the in-memory versions. The subtree minimum offset recorded by an inner node is the minimum of its children's subtree minima; a key equal to a child's minimum key is sent to that child; a snapshot's time follows its root. Known finding: a failed insertion falls back to the root of the last snapshot.",
 "C12": "Also: the per-transaction catalog clone shares no map or slice with the cached catalog; the persisted column flags byte accumulates NOT NULL / AUTO_INCREMENT / HAS_DEFAULT; index entries are re-used only for the same row version; DDL commits invalidate the catalog cache. Generated keys continue after an explicit key above the maximum. Uniqueness probes skip tombstones; timestamps enter truncated; a NOT NULL column is never added to an existing table; persisted CHECK text carries every evaluated field; a NULL default meets the NOT NULL check. The Row evaluated by CHECK receives every value stored into the row image; TRUNCATE carries every secondary index over; the deferred cancel of the query path cancels on every error; a catalog is published into the cache only under an unchanged version; a failed DML ... RETURNING is reported.",
 "C13": "Also: the result of every SQLTx.Commit call is consumed (a failed COMMIT is never reported as success); the catalog clone is deep; own writes are recorded against the latest write. The statement loop commits only implicit transactions. Every data snapshot of a transaction, read-only or not, is at least as recent as the last catalog change. A failed DML ... RETURNING is reported, never an empty success; only committed transactions are listed as committed; index-entry keys are assembled in place; PostgreSQL wire: after a failure inside a block nothing runs until the block ends, and describing a statement does not execute it.",
 "C14": "Also: every catalog loader with a copy mode re-writes what it loads into the copy transaction; the forward walk of TruncateUptoTx covers the committed frontier; the first chunk kept by DiscardUpto is the one holding the offset. Read-transaction holders are released on every path; the shared export buffer is copied under its lock. The discard offset is derived from the first entry of the cut transaction; the catalog copy covers every persisted kind of catalog entry (views and sequences included). The catalog copy builds its scan keys from every persisted prefix; store transactions opened by the database layer are committed or cancelled on every path; the truncation plan is a header or an error; the truncation attribute survives the proto conversion. Known finding: the forward walk of TruncateUptoTx stops at the committed frontier (writers in flight are not seen).",
 "C15": "Also: within a decoder the cursor advances by exactly what was read at it; length limits use the same comparison on both sides; timestamps are normalised where they enter the engine; metadata converters return nil only for nil. Length comparisons of the SQL key codec test 'exceeds' on both sides; both lengths returned by DecodeValueLength are used by every row decoder; nanosecond keys are built only from timestamps in range. Expression text persisted in the catalog carries every field evaluation uses; exported bytes are the bytes read. Converters guard on presence, never on values (one frozen proto3 exception); values of fallible getters are used on the success edge; what is serialized next to an index entry is computed in the iteration that serializes it. PostgreSQL wire: 2/4-byte integers are widened through the signed type, the binary result encoder has a case for every storable type; rows sorted through temporary files carry a presence byte per value and a 32-bit size; string literals are rendered with their quotes doubled.",
 "C16": "Also: every make([]T, n) whose n derives from a decoded 32/64-bit integer is dominated by a comparison on it; a decoded uint64 converted to int is range-checked; chunk-receiver loops cannot return to Recv() after io.EOF without consulting the recorded flag; the chunk size read back from a chunk header is validated; proof-term slices are in scope for the proof verifiers. Map lookups keyed by a decoded value-log id are comma-ok guarded; the pgsql front-end message parsers are decoder roots. b[:n] with a computed n is proven non-negative; decoders use comma-ok type assertions; sub-messages of peer messages are nil-checked before use (client, auditor, document verification, converters, ExecAll validation). Lexer read loops are left once a read failed (end of input included); constructors of the storage layers never answer (nil, nil); a decoded inner node has at least one child; every allocation sized by a decoded 32/64-bit number is compared with a limit first (module-wide).",
 "C17": "Also: the file is read only below fileOffset (E6 obligation); a rewind must be persistent (two known findings: no truncation, later chunk files kept). The zero-fill of a preallocated file is cut to preallocSize; the compressed-chunk bound is taken against the logical size. An in-buffer rewind is computed from buffer indexes; a cached chunk is closed only without readers; header reads are full reads; a cache miss is not surfaced as a read error; an empty last chunk is created again. The byte count of a short write is added to the file offset and the flushed mark on the error path too; the routing step hands out the active chunk only when the offset's chunk id equals the active one.",
 "C18": "Also: statements sent to a session transaction pass the gate of SQLExec/SQLQuery on the session's database, which must be the transaction's database; user-record changes drop the cached record unconditionally; field updates of user/permission records are effective (no lost write to a range copy); token validation includes the expiry claim. Every message received on a bidirectional stream passes the gate again. Rights on the database named in a request need admin permission on that database; the creator of an account is rewritten only by who may already act on it. Closing the sessions of a user goes on after a session that could not be released; a permission change rewrites the SQL privileges of the named database only.",
 "C04": "Also: whoever replaces an indexer's tree re-anchors the hub that gates reads (compaction); sibling History implementations number revisions as a function of order and offset. A prefix lookup whose first match is filtered out continues with the following keys; a clamped scan bound is inclusive; a node reference mirrors the accessors of its child. Key readers opened by the database layer for scans and counts carry the deleted/expired filters; the indexer addresses its bulk buffer only after comparing the index with its length.",
}
for k, v in EXTRA.items():
    if k in CLAIMED:
        CLAIMED[k]['text'] = CLAIMED[k]['text'].rstrip() + " " + v

for p in props:
    pid = p['id']
    if pid in CLAIMED:
        c = CLAIMED[pid]
        checks.append({
          "property_id": pid,
          "quick_cmd": f"./run.sh {pid} quick",
          "thorough_cmd": f"./run.sh {pid} thorough",
          "evidence_file": f"/verif/evidence/{pid}.json",
          "replay_cmd_template": "bin/immucheck -replay {path}",
          "engine": "immucheck",
          "level_claimed": {"category": "other", "text": c['text'], "design_ref": c['ref']},
          "level_note": c['note'],
          "technique": c['technique'],
        })
    else:
        na.append({"property_id": pid, "reason": NA.get(pid, PENDING)})
m = {
 "version": 1,
 "setup_cmd": "cd /verif/checker && GOFLAGS=-mod=mod GOPROXY=off go build -o /verif/bin/immucheck .",
 "hooks": {"guard": "verif", "enable": "none: the checks are static and need no instrumentation of /repo", 
           "baseline_off_cmd": "cd /repo && GOFLAGS=-mod=mod go test -json -vet=off -count=1 -timeout 25m ./...",
           "source_commits": [], "add_only": True},
 "engines": [{"name": "immucheck", "path": "/verif/checker", "serves_properties": sorted(CLAIMED),
              "kind_free_text": "repository-specific static analyser over go/packages + go/ssa (path rules, who-may-call, lockset, error discipline, bounds obligations, table agreement)"}],
 "checks": checks,
 "not_applicable": na,
 "notes": "All checks decide their verdict from /repo's current source without executing it. Known genuine defects are listed in /verif/known_findings.json.",
}
json.dump(m, open('/verif/MANIFEST.json','w'), indent=1)
print("claimed", [c['property_id'] for c in checks], "na", len(na))
