#!/usr/bin/env python3
# Generates MANIFEST.json from the table below (kept in one place so it stays valid).
import json, subprocess

CLAIMED = {
 "C03": dict(
   text="Static decision of the write-ordering, acknowledgement, recovery-guard and error-discipline clauses the crash-durability argument rests on (all paths of the commit, hash-tree, index and appendable code; all call sites of the ack primitives). A necessary condition of C03, not a proof of crash consistency.",
   note="Trusted: Go type checker, go/ssa lowering, the frozen rule tables in checker/c03*.go; appendables honour Flush/Sync. Not covered: which bytes survive a crash, recovery as a whole.",
   technique="must-pass-through / ordering rules over the SSA control-flow graph, who-may-call over the whole program, error-use dataflow",
   ref="DESIGN.md §3 C03"),
}
NA = {
}
PENDING = "check not built yet in this round (see DESIGN.md §3 for the planned static clauses)"

props = [json.loads(l) for l in open('/verif/properties.jsonl')]
checks, na = [], []
for p in props:
    pid = p['id']
    if pid in CLAIMED:
        c = CLAIMED[pid]
        checks.append({
          "property_id": pid,
          "quick_cmd": f"./run.sh {pid} quick",
          "thorough_cmd": f"./run.sh {pid} thorough",
          "evidence_file": f"/verif/evidence/{pid}.json",
          "replay_cmd_template": "bin/immucheck -replay {path}",
          "engine": "immucheck",
          "level_claimed": {"category": "other", "text": c['text'], "design_ref": c['ref']},
          "level_note": c['note'],
          "technique": c['technique'],
        })
    else:
        na.append({"property_id": pid, "reason": NA.get(pid, PENDING)})
m = {
 "version": 1,
 "setup_cmd": "cd /verif/checker && GOFLAGS=-mod=mod GOPROXY=off go build -o /verif/bin/immucheck .",
 "hooks": {"guard": "verif", "enable": "none: the checks are static and need no instrumentation of /repo", 
           "baseline_off_cmd": "cd /repo && GOFLAGS=-mod=mod go test -json -vet=off -count=1 -timeout 25m ./...",
           "source_commits": [], "add_only": True},
 "engines": [{"name": "immucheck", "path": "/verif/checker", "serves_properties": sorted(CLAIMED),
              "kind_free_text": "repository-specific static analyser over go/packages + go/ssa (path rules, who-may-call, lockset, error discipline, bounds obligations, table agreement)"}],
 "checks": checks,
 "not_applicable": na,
 "notes": "All checks decide their verdict from /repo's current source without executing it. Known genuine defects are listed in /verif/known_findings.json.",
}
json.dump(m, open('/verif/MANIFEST.json','w'), indent=1)
print("claimed", [c['property_id'] for c in checks], "na", len(na))
